#!/usr/bin/env python3
"""Writes MANIFEST.json from the table below (keeps the manifest valid and in one place)."""
import json, os
HERE = os.path.dirname(os.path.abspath(__file__))
BASE_NOTE = ("Trusted base: rustc/syn parsers, the contract table for bytes/core in vlib/rseval.py, the reference model "
             "vlib/ref.py written from doc/reference.md, the corpus (vlib/stages.py, corpus/). The quantifier over "
             "byte strings / values is discharged statically; the quantifier over descriptions is an explicit corpus.")
CHECKS = {
 "C01": dict(level="other", technique="abstract interpretation of emitted Rust (intervals, length bounds, typestate)",
   text="Every decode/decode_partial/specialize body the Rust backend emits for the corpus is abstractly interpreted "
        "for ALL byte strings: each trap-capable operation is an obligation proved from dominating guards; generator "
        "is only run to produce the subject, emitted code is never executed.", ref="7/C01"),
 "C05": dict(level="other", technique="abstract interpretation of emitted Rust encoders (intervals over Rust types, bit provenance, symbolic byte count)",
   text="Every encode/encode_partial body emitted for the corpus is abstractly interpreted for ALL values of the generated "
        "types: narrowing casts, put_uint widths, shifts and ORs must be loss-free under dominating guards, nothing may "
        "trap, and the byte count of the Ok path equals encoded_len() as polynomials.", ref="7/C05"),
 "C15": dict(level="translation_validation", technique="interval-set semantics of generated match arms (Rust), from_int handlers (Python) and IsValid functions (C++, clang AST) vs reference enum table",
   text="Per enum the generated TryFrom/From conversion functions are computed as functions on the whole backing-type "
        "domain (first-match interval sweep) and compared segment by segment with the reference model: exhaustive over "
        "all integers per enum. C++: IsValid<Enum> accepted set == reference set for closed enums, none for open enums.", ref="7/C15"),
 "C18": dict(level="other", technique="MIR dominance/def-use rules on trait Packet's provided methods + syntactic rules on generated impls",
   text="The four provided methods of pdl_runtime::Packet are checked on rustc's MIR (generic over all implementors): "
        "decode_full/decode_mut/encode_to_* obey their laws by dominance and value-origin rules; every generated impl "
        "Packet defines exactly decode/encode/encoded_len and only appends to the output buffer.", ref="7/C18"),
 "C11": dict(level="other", technique="MIR flow-to-sink (hash-ordered iteration), who-may-call (ambient inputs), call-graph pipeline rules",
   text="Over rustc's MIR of pdl-compiler, pdlc and pdl-derive: every hash-ordered iteration ends in an order-erasing "
        "consumer, no ambient input is read, and every generator entry point receives the value of analyze()'s Ok on "
        "all three front-ends (CLI, #[pdl], #[pdl_inline]).", ref="7/C11"),
 "C12": dict(level="other", technique="grammar-vs-confirmed-normal-form comparison (pest AST), converter/grammar agreement, arm exhaustiveness, who-may-call (MIR), loc provenance (syn)",
   text="Structural clauses of parser fidelity decided on the source: the pest grammar normalises to the production set "
        "confirmed against doc/reference.md; the integer converter strips every prefix the grammar accepts; every grammar "
        "alternative has a converter arm building an AST node; Pair::into_inner only via the comment-filtering helper; "
        "every AST node's loc comes from as_loc of the pair being converted; line starts come from the renderer's function. "
        "Value-level AST equality is not decided.", ref="7/C12"),
 "C09": dict(level="other", technique="three-valued evaluation of the topological-sort producer against Schema's consumers, MIR def-use of the sorted file, syn rules on inline_groups, sibling predicate agreement",
   text="Order independence is decided as producer/consumer agreement: for every FieldDesc shape and declaration kind "
        "whose size Schema::new needs, check_decl_identifiers::bfs visits the referenced declaration first on every "
        "non-failing path; all passes receive the sorted file; groups inline to fixed fields with the same range guard. "
        "Equality of two compiler runs is not decided.", ref="7/C09"),
 "C08": dict(level="other", technique="error-discipline and exhaustiveness rules (syn + MIR call graph), gate def-use rules, guard-skeleton inventory vs confirmed inventory",
   text="Every Diagnostics-returning pass is called and propagated by analyze(); every ErrorCode is raised on a reachable "
        "path with a primary label built from a node's own range; no backend is reachable except through analyze()'s Ok; "
        "the conditions guarding each of the 53 diagnostics equal the inventory confirmed against the reference (boundary "
        "operators, inclusive ranges, matched shapes).", ref="7/C08"),
 "C10": dict(level="other", technique="compile witnesses (rustc/clang/Python ast as type checkers) over the corpus + Err-propagation and panic-site inventory rules on the source",
   text="Partly claimed: every corpus description's emitted Rust type-checks under forbid(unsafe_code), the emitted Python "
        "parses with all names bound, the emitted C++ passes clang -fsyntax-only; generator panics while producing the "
        "subject are reported; parser helpers propagate errors as values; the panic-capable sites of parser/analyzer/ast are "
        "the confirmed inventory. 'No stage panics on ANY input' is not decidable by this family and is not claimed.",
   ref="7/C10"),
 "C03": dict(level="translation_validation", technique="bit-provenance layout extraction from emitted Rust encoders compared with an independent reference model of doc/reference.md",
   text="Per type and endianness, the layout the emitted encoder writes (bit provenance of every put_*, byte order, arrays, "
        "padding, payload, optionals, size/count/flag derivations, child regions) equals the reference layout item by item "
        "and bit by bit; value independent, hence for all values.", ref="7/C03"),
 "C04": dict(level="translation_validation", technique="decoder layout extraction (event trace of the abstract interpreter) compared with the reference model; rejection inventory",
   text="Per declaration and endianness, what the emitted decoder reads (bits of every chunk and their use, byte order, "
        "array delimitation by count/size/rest and element octets, padding, payload delimitation incl. modifier and static "
        "tail, optionals and their flag, nested structs) equals the reference layout; every rejection cause (fixed value, "
        "enum value, size multiple, constraint, trailing bytes) has its reject point with the right DecodeError variant. "
        "The iff over all byte strings as a single theorem is not machine-checked.", ref="7/C04"),
 "C02": dict(level="translation_validation", technique="direct encoder-layout vs decoder-layout comparison with symmetric derivation of size/count/flag fields",
   text="The necessary conditions of round-trip identity are decided encoder against decoder: same items, same field at the "
        "same bit, same byte order, derived fields derived and consumed symmetrically, fixed bits written == compared, "
        "decoder range within the encoder's accepted range. Equality of values follows by the argument in DESIGN.md.",
   ref="7/C02"),
 "C17": dict(level="translation_validation", technique="layout comparison of little/big-endian twin descriptions",
   text="For every twin pair of corpus descriptions the extracted encoder and decoder layouts are identical except the byte "
        "order tag of multi-byte accesses, which is little vs big; single bytes, byte arrays, payload and padding identical.",
   ref="7/C17"),
 "C06": dict(level="translation_validation", technique="abstract evaluation of the generated specialize() match over its finite partition vs a reference specialisation function; constraint-check and conversion inventories",
   text="specialize() of every parent is evaluated with first-match semantics on every cell of the partition induced by "
        "its literals (values and payload lengths) and compared with the reference specialisation computed from the "
        "description; decode_partial checks each local constraint with the right value before parsing; child-to-parent "
        "conversions pin constrained fields to their values and copy the rest.", ref="7/C06"),
 "C13": dict(level="translation_validation", technique="abstract interpretation of the emitted Python (ast) + layout comparison with the reference model",
   text="Every generated Python parse is evaluated symbolically for all inputs (never run): span[k] needs a proved length, "
        "constant-bound slices feeding from_bytes/parse_all/advances need the bytes, size modifiers cannot go negative, every "
        "raise builds a DecodeError subclass, fields[k] read-after-write, kwargs subset of dataclass fields, loop progress; "
        "parser and serializer layouts equal the reference in both byte orders; inherited constraints are checked and pinned; "
        "size == bytes written for roots.", ref="7/C13"),
 "C14": dict(level="translation_validation", technique="abstract interpretation of clang's type-checked AST (JSON) of every emitted C++ header + layout comparison with the reference model",
   text="View::Parse, struct Parse and the array getters of every emitted header are evaluated symbolically for all byte "
        "strings over clang's own AST (never compiled to code or run): each slice read/skip/subrange/at needs its bytes, "
        "divisors are non-zero, guard arithmetic does not wrap, value-changing conversions do not shrink a parsed size, "
        "rest-loops consume input, subscripts are in range; what Parse reads equals the reference layout (bits, byte order, "
        "array and payload delimitation, padding, optionals, nested structs) and child views test their constraints; "
        "Builder::Serialize / GetSize and the runtime templates are compared with the reference encoding. Functions with "
        "compile errors are C10's and are skipped (counted).", ref="7/C14"),
 "C19": dict(level="translation_validation", technique="abstract interpretation of javac's attributed syntax trees of every emitted Java class (signed-integer semantics) + layout comparison with the reference model",
   text="The Java backend (pdl-compiler built with the `java` feature inside pdlgen) is run over the corpus; javac's trees of "
        "the emitted classes are evaluated symbolically, never compiled to bytecode or run: Utils.getNN/putNN bit by bit; "
        "fromBytes/fromPayload read the reference layout and no wire value reaches an array length, loop bound, slice length, "
        "remaining size or field through a sign-keeping widening; toBytes writes the reference layout of the declaration's "
        "own fields and hands children to the parent; fieldWidth() equals the bytes written. Exceptions are rejections.",
   ref="7/C19"),
 "C07": dict(level="translation_validation", technique="pairwise comparison of layouts extracted from the Rust and Python backends; sentinel agreement rule over all backend sources",
   text="For every corpus declaration supported by both backends the parser layouts and the serializer layouts extracted "
        "from emitted Rust and emitted Python are compared directly (not via the reference); every comparison of a size "
        "field's target in any backend (incl. Java) uses a sentinel the parser produces. C++/Java layouts are not extracted.",
   ref="7/C07"),
 "C16": dict(level="translation_validation", technique="static sizes baked into emitted code vs reference sizes; guard tightness; first-match evaluation of the Size lattice; sibling predicate agreement (syn)",
   text="Decided through the consumers and the definitions of the size annotations: emitted size is a constant exactly when "
        "the reference size is static and equals it; constant length guards are tight; Size::add/mul resolved over all 3x3 "
        "constructor pairs; the delimitation predicates (payload/array/element size, optional => Dynamic, reversed padding "
        "scan) agree across analyzer.rs and ast.rs. Schema entries no backend consumes are not decided.", ref="7/C16"),
}
NOT_APPLICABLE = {
}
def main():
    props = [json.loads(l)["id"] for l in open(os.path.join(HERE, "properties.jsonl"))]
    checks = []
    for pid in props:
        if pid not in CHECKS:
            continue
        c = CHECKS[pid]
        checks.append({
            "property_id": pid,
            "quick_cmd": f"./check {pid} --tier quick",
            "thorough_cmd": f"./check {pid} --tier thorough",
            "evidence_file": f"/verif/evidence/{pid}.json",
            "replay_cmd_template": f"./check {pid} --replay {{path}}",
            "engine": c.get("engine", "vlib"),
            "level_claimed": {"category": c["level"], "text": c["text"], "design_ref": c["ref"]},
            "level_note": c.get("note", BASE_NOTE),
            "technique": c["technique"],
        })
    na = [{"property_id": p, "reason": r} for p, r in NOT_APPLICABLE.items()]
    for pid in props:
        if pid not in CHECKS and pid not in NOT_APPLICABLE:
            na.append({"property_id": pid, "reason": "check not registered yet in this revision (machinery under construction)"})
    m = {
        "version": 1,
        "setup_cmd": "./setup.sh",
        "hooks": {"guard": "pdl_verif", "enable": "none needed: no hooks were added to /repo", 
                  "baseline_off_cmd": "cd /repo && cargo test --workspace --no-fail-fast --offline",
                  "source_commits": [], "add_only": True},
        "engines": [
            {"name": "vlib", "path": "/verif/vlib", "serves_properties": sorted(CHECKS),
             "kind_free_text": "Python static analyses over syn/pest/MIR/Python-ast/clang-AST dumps; abstract interpreter for emitted code"},
            {"name": "tools", "path": "/verif/tools", "serves_properties": sorted(CHECKS),
             "kind_free_text": "Rust dumpers: pdlgen (runs /repo's generator on the corpus), syn2json, pest2json"},
        ],
        "checks": checks,
        "not_applicable": na,
        "notes": "Static analysis only; see DESIGN.md. known_findings.json lists recorded genuine defects.",
    }
    json.dump(m, open(os.path.join(HERE, "MANIFEST.json"), "w"), indent=1)
main()
