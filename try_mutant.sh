#!/bin/sh
# usage: try_mutant.sh <patch.diff> <prop> [<prop>...]   -- applies the patch to /repo, runs the checks, reverts.
patch="$1"; shift
git -C /repo apply "$patch" || { echo "patch does not apply"; exit 2; }
for p in "$@"; do
  /verif/check "$p" 2>&1 | grep -E "^VIOLATION|^  key:|^\[" | cut -c1-200 | head -12
done
git -C /repo checkout -- .
