#!/bin/bash
# run every registered check (quick by default); usage: runall.sh [tier]
cd /verif
tier=${1:-quick}
props=$(python3 -c "import json; print(' '.join(c['property_id'] for c in json.load(open('MANIFEST.json'))['checks']))")
fail=0
for p in $props; do
  out=$(./check $p --tier $tier 2>&1); rc=$?
  echo "$out" | grep -E "^VIOLATION|^  key:|^\[" | cut -c1-200
  [ $rc -ne 0 ] && fail=1
done
exit $fail
