// Dumps the javac syntax trees (attributed: expression types resolved) of every .java file below a directory as JSON,
// one file <name>.json per source file.  No rules here: the decision logic lives in /verif/vlib.
import com.sun.source.tree.*;
import com.sun.source.util.*;
import javax.lang.model.type.TypeMirror;
import javax.tools.*;
import java.io.*;
import java.nio.file.*;
import java.util.*;

public class JavaDump {
    static Trees trees;
    static CompilationUnitTree unit;
    static SourcePositions pos;
    static LineMap lines;

    static String esc(String s) {
        StringBuilder b = new StringBuilder("\"");
        for (char c : s.toCharArray()) {
            switch (c) {
                case '"': b.append("\\\""); break;
                case '\\': b.append("\\\\"); break;
                case '\n': b.append("\\n"); break;
                case '\r': b.append("\\r"); break;
                case '\t': b.append("\\t"); break;
                default: if (c < 0x20) b.append(String.format("\\u%04x", (int) c)); else b.append(c);
            }
        }
        return b.append("\"").toString();
    }

    static class V extends TreeScanner<Void, Void> {
        StringBuilder out = new StringBuilder();
        TreePath path;

        void field(String k, String v) { out.append(",").append(esc(k)).append(":").append(v); }
        void str(String k, Object v) { if (v != null) field(k, esc(v.toString())); }
        void node(String k, Tree t) { if (t != null) { out.append(",").append(esc(k)).append(":"); emit(t); } }
        void list(String k, List<? extends Tree> ts) {
            out.append(",").append(esc(k)).append(":[");
            boolean first = true;
            if (ts != null) for (Tree t : ts) { if (!first) out.append(","); first = false; emit(t); }
            out.append("]");
        }

        void emit(Tree t) {
            if (t == null) { out.append("null"); return; }
            out.append("{\"k\":").append(esc(t.getKind().toString()));
            long p = pos.getStartPosition(unit, t);
            if (p >= 0) field("l", Long.toString(lines.getLineNumber(p)));
            if (t instanceof ExpressionTree) {
                try {
                    TreePath tp = TreePath.getPath(unit, t);
                    TypeMirror tm = tp == null ? null : trees.getTypeMirror(tp);
                    if (tm != null) str("t", tm.toString());
                } catch (Throwable e) { /* no type */ }
            }
            switch (t.getKind()) {
                case COMPILATION_UNIT: list("decls", ((CompilationUnitTree) t).getTypeDecls()); break;
                case CLASS: case INTERFACE: case ENUM: case RECORD: {
                    ClassTree c = (ClassTree) t;
                    str("name", c.getSimpleName()); node("extends", c.getExtendsClause());
                    str("mods", c.getModifiers().getFlags()); list("members", c.getMembers()); break; }
                case METHOD: {
                    MethodTree m = (MethodTree) t;
                    str("name", m.getName()); node("ret", m.getReturnType()); list("params", m.getParameters());
                    str("mods", m.getModifiers().getFlags()); node("body", m.getBody()); break; }
                case VARIABLE: {
                    VariableTree v = (VariableTree) t;
                    str("name", v.getName()); node("type", v.getType()); node("init", v.getInitializer());
                    str("mods", v.getModifiers().getFlags()); break; }
                case BLOCK: list("stmts", ((BlockTree) t).getStatements()); break;
                case EXPRESSION_STATEMENT: node("e", ((ExpressionStatementTree) t).getExpression()); break;
                case IF: { IfTree i = (IfTree) t; node("cond", i.getCondition()); node("then", i.getThenStatement());
                    node("else", i.getElseStatement()); break; }
                case FOR_LOOP: { ForLoopTree f = (ForLoopTree) t; list("init", f.getInitializer()); node("cond", f.getCondition());
                    list("update", f.getUpdate()); node("body", f.getStatement()); break; }
                case ENHANCED_FOR_LOOP: { EnhancedForLoopTree f = (EnhancedForLoopTree) t; node("var", f.getVariable());
                    node("iter", f.getExpression()); node("body", f.getStatement()); break; }
                case WHILE_LOOP: { WhileLoopTree w = (WhileLoopTree) t; node("cond", w.getCondition()); node("body", w.getStatement()); break; }
                case RETURN: node("e", ((ReturnTree) t).getExpression()); break;
                case THROW: node("e", ((ThrowTree) t).getExpression()); break;
                case METHOD_INVOCATION: { MethodInvocationTree m = (MethodInvocationTree) t; node("fn", m.getMethodSelect());
                    list("args", m.getArguments()); break; }
                case MEMBER_SELECT: { MemberSelectTree m = (MemberSelectTree) t; node("e", m.getExpression()); str("name", m.getIdentifier()); break; }
                case IDENTIFIER: str("name", ((IdentifierTree) t).getName()); break;
                case PRIMITIVE_TYPE: str("name", ((PrimitiveTypeTree) t).getPrimitiveTypeKind()); break;
                case ARRAY_TYPE: node("elem", ((ArrayTypeTree) t).getType()); break;
                case PARAMETERIZED_TYPE: node("base", ((ParameterizedTypeTree) t).getType()); break;
                case PARENTHESIZED: node("e", ((ParenthesizedTree) t).getExpression()); break;
                case TYPE_CAST: { TypeCastTree c = (TypeCastTree) t; node("type", c.getType()); node("e", c.getExpression()); break; }
                case NEW_CLASS: { NewClassTree n = (NewClassTree) t; node("type", n.getIdentifier()); list("args", n.getArguments()); break; }
                case NEW_ARRAY: { NewArrayTree n = (NewArrayTree) t; node("type", n.getType()); list("dims", n.getDimensions());
                    list("inits", n.getInitializers()); break; }
                case ARRAY_ACCESS: { ArrayAccessTree a = (ArrayAccessTree) t; node("e", a.getExpression()); node("index", a.getIndex()); break; }
                case CONDITIONAL_EXPRESSION: { ConditionalExpressionTree c = (ConditionalExpressionTree) t; node("cond", c.getCondition());
                    node("a", c.getTrueExpression()); node("b", c.getFalseExpression()); break; }
                case INSTANCE_OF: { InstanceOfTree i = (InstanceOfTree) t; node("e", i.getExpression()); node("type", i.getType());
                    node("pattern", i.getPattern()); break; }
                case BINDING_PATTERN: node("var", ((BindingPatternTree) t).getVariable()); break;
                case ASSIGNMENT: { AssignmentTree a = (AssignmentTree) t; node("lhs", a.getVariable()); node("rhs", a.getExpression()); break; }
                case SWITCH: { SwitchTree s = (SwitchTree) t; node("e", s.getExpression()); list("cases", s.getCases()); break; }
                case SWITCH_EXPRESSION: { SwitchExpressionTree s = (SwitchExpressionTree) t; node("e", s.getExpression()); list("cases", s.getCases()); break; }
                case CASE: { CaseTree c = (CaseTree) t; list("labels", c.getExpressions()); list("stmts", c.getStatements()); node("body", c.getBody()); break; }
                case BREAK: case CONTINUE: case EMPTY_STATEMENT: break;
                case LAMBDA_EXPRESSION: { LambdaExpressionTree l = (LambdaExpressionTree) t; list("params", l.getParameters()); node("body", l.getBody()); break; }
                case TRY: { TryTree tr = (TryTree) t; node("block", tr.getBlock()); list("catches", tr.getCatches()); node("finally", tr.getFinallyBlock()); break; }
                case CATCH: { CatchTree c = (CatchTree) t; node("param", c.getParameter()); node("block", c.getBlock()); break; }
                default:
                    if (t instanceof LiteralTree) {
                        Object v = ((LiteralTree) t).getValue();
                        if (v instanceof Number) field("v", v.toString());
                        else if (v instanceof Boolean) field("v", v.toString());
                        else if (v instanceof Character) field("v", Integer.toString((Character) v));
                        else str("s", v);
                    } else if (t instanceof BinaryTree) {
                        BinaryTree b = (BinaryTree) t; node("a", b.getLeftOperand()); node("b", b.getRightOperand());
                    } else if (t instanceof UnaryTree) {
                        node("e", ((UnaryTree) t).getExpression());
                    } else if (t instanceof CompoundAssignmentTree) {
                        CompoundAssignmentTree c = (CompoundAssignmentTree) t; node("lhs", c.getVariable()); node("rhs", c.getExpression());
                    } else {
                        str("text", t.toString().length() > 200 ? t.toString().substring(0, 200) : t.toString());
                    }
            }
            out.append("}");
        }
    }

    public static void main(String[] args) throws Exception {
        Path in = Paths.get(args[0]), outDir = Paths.get(args[1]);
        Files.createDirectories(outDir);
        List<File> files = new ArrayList<>();
        try (var s = Files.walk(in)) { s.filter(p -> p.toString().endsWith(".java")).forEach(p -> files.add(p.toFile())); }
        JavaCompiler jc = ToolProvider.getSystemJavaCompiler();
        StandardJavaFileManager fm = jc.getStandardFileManager(null, null, null);
        StringWriter diag = new StringWriter();
        DiagnosticCollector<JavaFileObject> dc = new DiagnosticCollector<>();
        JavacTask task = (JavacTask) jc.getTask(diag, fm, dc, List.of("-proc:none"), null, fm.getJavaFileObjectsFromFiles(files));
        trees = Trees.instance(task);
        pos = trees.getSourcePositions();
        Iterable<? extends CompilationUnitTree> units = task.parse();
        List<CompilationUnitTree> us = new ArrayList<>();
        for (CompilationUnitTree u : units) us.add(u);
        try { task.analyze(); } catch (Throwable e) { /* keep the parse trees */ }
        StringBuilder errs = new StringBuilder("[");
        boolean first = true;
        for (Diagnostic<? extends JavaFileObject> d : dc.getDiagnostics()) {
            if (d.getKind() != Diagnostic.Kind.ERROR) continue;
            if (!first) errs.append(",");
            first = false;
            String f = d.getSource() == null ? "?" : Paths.get(d.getSource().toUri()).getFileName().toString();
            errs.append("{\"file\":").append(esc(f)).append(",\"line\":").append(d.getLineNumber()).append(",\"msg\":")
                .append(esc(d.getMessage(null))).append("}");
        }
        errs.append("]");
        Files.writeString(outDir.resolve("_errors.json"), errs.toString());
        for (CompilationUnitTree u : us) {
            unit = u; lines = u.getLineMap();
            V v = new V();
            v.emit(u);
            String name = Paths.get(u.getSourceFile().toUri()).getFileName().toString().replace(".java", ".json");
            Files.writeString(outDir.resolve(name), v.out.toString());
        }
    }
}
