//! pdlgen: run /repo's current parser, analyzer and generators over a corpus of PDL
//! descriptions, in the role pdl_derive gives them inside a build: produce the
//! programs to be analysed. Nothing emitted here is ever executed.
//!
//! usage: pdlgen <indir> <outdir> [--backends rust,python,cxx]
//!   reads  <indir>/<name>.pdl
//!   writes <outdir>/<name>.rs|.py|.h|.ast.json  and  <outdir>/status.json
use pdl_compiler::{analyzer, ast, backends, parser};
use serde_json::{json, Map, Value};
use std::panic::{catch_unwind, AssertUnwindSafe};

static PANIC_AT: std::sync::Mutex<Option<String>> = std::sync::Mutex::new(None);

/// {"panic": message, "at": "file:line"} -- the location is for the report only, never part of a finding's key
fn panic_json(e: Box<dyn std::any::Any + Send>) -> Value {
    let at = PANIC_AT.lock().ok().and_then(|mut g| g.take());
    json!({"panic": panic_msg(e), "at": at})
}

fn panic_msg(e: Box<dyn std::any::Any + Send>) -> String {
    if let Some(s) = e.downcast_ref::<String>() {
        s.clone()
    } else if let Some(s) = e.downcast_ref::<&str>() {
        s.to_string()
    } else {
        "<non-string panic>".to_string()
    }
}

fn main() {
    let args: Vec<String> = std::env::args().collect();
    if args.len() < 3 {
        eprintln!("usage: pdlgen <indir> <outdir> [--backends rust,python,cxx]");
        std::process::exit(2);
    }
    let indir = std::path::Path::new(&args[1]);
    let outdir = std::path::Path::new(&args[2]);
    let mut want = vec!["rust".to_string(), "python".to_string(), "cxx".to_string(), "java".to_string()];
    if let Some(i) = args.iter().position(|a| a == "--backends") {
        want = args[i + 1].split(',').map(|s| s.to_string()).collect();
    }
    std::fs::create_dir_all(outdir).unwrap();
    // silence panic messages on stderr; they are recorded in status.json
    std::panic::set_hook(Box::new(|info| {
        if let (Some(l), Ok(mut g)) = (info.location(), PANIC_AT.lock()) {
            *g = Some(format!("{}:{}", l.file(), l.line()));
        }
    }));

    let mut names: Vec<String> = std::fs::read_dir(indir)
        .expect("indir")
        .filter_map(|e| {
            let p = e.unwrap().path();
            if p.extension().map(|x| x == "pdl").unwrap_or(false) {
                Some(p.file_stem().unwrap().to_string_lossy().to_string())
            } else {
                None
            }
        })
        .collect();
    names.sort();

    let mut status = Map::new();
    for name in &names {
        let text = std::fs::read_to_string(indir.join(format!("{name}.pdl"))).unwrap();
        let mut st = Map::new();
        let mut sources = ast::SourceDatabase::new();
        let parsed = catch_unwind(AssertUnwindSafe(|| {
            parser::parse_inline(&mut sources, &format!("{name}.pdl"), text.clone())
        }));
        let file = match parsed {
            Err(e) => {
                st.insert("parse".into(), panic_json(e));
                status.insert(name.clone(), Value::Object(st));
                continue;
            }
            Ok(Err(d)) => {
                st.insert("parse".into(), json!({"error": d.message}));
                status.insert(name.clone(), Value::Object(st));
                continue;
            }
            Ok(Ok(f)) => f,
        };
        st.insert("parse".into(), json!("ok"));
        match catch_unwind(AssertUnwindSafe(|| backends::json::generate(&file))) {
            Ok(Ok(s)) => {
                std::fs::write(outdir.join(format!("{name}.ast.json")), s).unwrap();
                st.insert("json".into(), json!("ok"));
            }
            Ok(Err(e)) => {
                st.insert("json".into(), json!({"error": e}));
            }
            Err(e) => {
                st.insert("json".into(), panic_json(e));
            }
        }
        let opts: Value = std::fs::read_to_string(indir.join(format!("{name}.opts.json")))
            .ok()
            .and_then(|s| serde_json::from_str(&s).ok())
            .unwrap_or(json!({}));
        let mut analyze_ok = true;
        let only: Option<Vec<String>> = opts["backends"]
            .as_array()
            .map(|a| a.iter().filter_map(|x| x.as_str().map(String::from)).collect());
        for b in &want {
            if let Some(o) = &only {
                if !o.contains(b) {
                    st.insert(b.clone(), json!("skipped"));
                    continue;
                }
            }
            let excl: Vec<String> = opts["exclude"][b.as_str()]
                .as_array()
                .map(|a| a.iter().filter_map(|x| x.as_str().map(String::from)).collect())
                .unwrap_or_default();
            // same order as pdlc: filter declarations, then analyze, then generate
            let filtered = ast::File {
                declarations: file
                    .declarations
                    .iter()
                    .filter(|d| d.id().map(|id| !excl.contains(&id.to_owned())).unwrap_or(true))
                    .cloned()
                    .collect(),
                ..file.clone()
            };
            let analyzed = catch_unwind(AssertUnwindSafe(|| analyzer::analyze(&filtered)));
            let analyzed = match analyzed {
                Err(e) => {
                    st.insert("analyze".into(), panic_json(e));
                    analyze_ok = false;
                    break;
                }
                Ok(Err(diags)) => {
                    let codes: Vec<Value> = diags
                        .diagnostics
                        .iter()
                        .map(|d| json!({"code": d.code, "message": d.message}))
                        .collect();
                    st.insert("analyze".into(), json!({"errors": codes}));
                    analyze_ok = false;
                    break;
                }
                Ok(Ok(f)) => f,
            };
            if b == "java" {
                let dir = outdir.join(format!("{name}.java.d"));
                let r = catch_unwind(AssertUnwindSafe(|| {
                    backends::java::generate(&sources, &analyzed, &[], &dir, "p")
                }));
                match r {
                    Ok(Ok(())) => {
                        st.insert(b.clone(), json!("ok"));
                    }
                    Ok(Err(e)) => {
                        st.insert(b.clone(), json!({"error": e}));
                    }
                    Err(e) => {
                        st.insert(b.clone(), panic_json(e));
                    }
                }
                continue;
            }
            let pycustom = opts["python_custom"].as_str();
            let (ext, res): (&str, std::thread::Result<String>) = match b.as_str() {
                "rust" => (
                    "rs",
                    catch_unwind(AssertUnwindSafe(|| backends::rust::generate(&sources, &analyzed, &[]))),
                ),
                "python" => (
                    "py",
                    catch_unwind(AssertUnwindSafe(|| {
                        backends::python::generate(&sources, &analyzed, pycustom, &excl)
                    })),
                ),
                "cxx" => (
                    "h",
                    catch_unwind(AssertUnwindSafe(|| {
                        backends::cxx::generate(&sources, &analyzed, Some("pdlns"), &[], &[], &excl)
                    })),
                ),
                _ => continue,
            };
            match res {
                Ok(code) => {
                    std::fs::write(outdir.join(format!("{name}.{ext}")), code).unwrap();
                    st.insert(b.clone(), json!("ok"));
                }
                Err(e) => {
                    st.insert(b.clone(), panic_json(e));
                }
            }
        }
        if analyze_ok {
            st.insert("analyze".into(), json!("ok"));
        }
        status.insert(name.clone(), Value::Object(st));
    }
    std::fs::write(
        outdir.join("status.json"),
        serde_json::to_string_pretty(&Value::Object(status)).unwrap(),
    )
    .unwrap();
    eprintln!("pdlgen: {} descriptions", names.len());
}
