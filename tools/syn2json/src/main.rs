//! syn2json: dump a Rust source file as a JSON syntax tree with line/column.
//! Generic dumper, no rules inside. Usage: syn2json <in.rs> [<out.json>]
//! With `--dir <indir> <outdir>`: convert every *.rs in indir.
use proc_macro2::Span;
use quote::ToTokens;
use serde_json::{json, Map, Value};
use syn::spanned::Spanned;
use syn::*;

fn loc(v: &mut Map<String, Value>, sp: Span) {
    let s = sp.start();
    v.insert("l".into(), json!(s.line));
    v.insert("c".into(), json!(s.column));
    let e = sp.end();
    v.insert("el".into(), json!(e.line));
}

fn node(kind: &str, sp: Span) -> Map<String, Value> {
    let mut m = Map::new();
    m.insert("k".into(), json!(kind));
    loc(&mut m, sp);
    m
}

fn toks<T: ToTokens>(t: &T) -> String {
    let s = t.to_token_stream().to_string();
    // normalise token spacing
    let mut out = String::with_capacity(s.len());
    let cs: Vec<char> = s.chars().collect();
    let mut i = 0;
    while i < cs.len() {
        let c = cs[i];
        if c == ' ' {
            let prev = out.chars().last().unwrap_or(' ');
            let next = if i + 1 < cs.len() { cs[i + 1] } else { ' ' };
            let idc = |x: char| x.is_alphanumeric() || x == '_' || x == '\'' || x == '"';
            if idc(prev) && idc(next) {
                out.push(' ');
            }
        } else {
            out.push(c);
        }
        i += 1;
    }
    out
}

fn path_v(p: &Path) -> Value {
    let segs: Vec<Value> = p
        .segments
        .iter()
        .map(|s| {
            let args = match &s.arguments {
                PathArguments::None => Value::Null,
                a => json!(toks(a)),
            };
            json!({"id": s.ident.to_string(), "args": args})
        })
        .collect();
    let names: Vec<String> = p.segments.iter().map(|s| s.ident.to_string()).collect();
    json!({"s": names.join("::"), "segs": segs, "full": toks(p)})
}

fn lit_v(l: &Lit) -> Value {
    let mut m = node("Lit", l.span());
    match l {
        Lit::Int(i) => {
            m.insert("ty".into(), json!("int"));
            m.insert("v".into(), json!(i.base10_digits()));
            m.insert("suffix".into(), json!(i.suffix()));
            m.insert("text".into(), json!(i.to_string()));
        }
        Lit::Str(s) => {
            m.insert("ty".into(), json!("str"));
            m.insert("v".into(), json!(s.value()));
        }
        Lit::Bool(b) => {
            m.insert("ty".into(), json!("bool"));
            m.insert("v".into(), json!(b.value));
        }
        Lit::Char(c) => {
            m.insert("ty".into(), json!("char"));
            m.insert("v".into(), json!(c.value().to_string()));
        }
        Lit::ByteStr(b) => {
            m.insert("ty".into(), json!("bytestr"));
            m.insert("v".into(), json!(b.value()));
        }
        Lit::Byte(b) => {
            m.insert("ty".into(), json!("byte"));
            m.insert("v".into(), json!(b.value()));
        }
        other => {
            m.insert("ty".into(), json!("other"));
            m.insert("v".into(), json!(toks(other)));
        }
    }
    Value::Object(m)
}

fn attrs_v(attrs: &[Attribute]) -> Value {
    Value::Array(attrs.iter().map(|a| json!(toks(&a.meta))).collect())
}

fn block_v(b: &Block) -> Value {
    Value::Array(b.stmts.iter().map(stmt_v).collect())
}

fn stmt_v(s: &Stmt) -> Value {
    match s {
        Stmt::Local(l) => {
            let mut m = node("Let", l.span());
            m.insert("pat".into(), pat_v(&l.pat));
            if let Some(init) = &l.init {
                m.insert("init".into(), expr_v(&init.expr));
                if let Some((_, d)) = &init.diverge {
                    m.insert("else".into(), expr_v(d));
                }
            }
            Value::Object(m)
        }
        Stmt::Item(i) => item_v(i),
        Stmt::Expr(e, semi) => {
            let mut m = node("ExprStmt", e.span());
            m.insert("e".into(), expr_v(e));
            m.insert("semi".into(), json!(semi.is_some()));
            Value::Object(m)
        }
        Stmt::Macro(mac) => {
            let mut m = node("ExprStmt", mac.span());
            m.insert("e".into(), macro_v(&mac.mac, mac.span()));
            m.insert("semi".into(), json!(mac.semi_token.is_some()));
            Value::Object(m)
        }
    }
}

fn macro_v(mac: &Macro, sp: Span) -> Value {
    let mut m = node("Macro", sp);
    m.insert("path".into(), json!(toks(&mac.path)));
    m.insert("tokens".into(), json!(mac.tokens.to_string()));
    // try to parse as comma separated expressions
    if let Ok(args) = mac.parse_body_with(punctuated::Punctuated::<Expr, Token![,]>::parse_terminated) {
        m.insert("args".into(), Value::Array(args.iter().map(expr_v).collect()));
    }
    Value::Object(m)
}

fn pat_v(p: &Pat) -> Value {
    let mut m;
    match p {
        Pat::Ident(i) => {
            m = node("PIdent", i.span());
            m.insert("id".into(), json!(i.ident.to_string()));
            m.insert("mut".into(), json!(i.mutability.is_some()));
            m.insert("ref".into(), json!(i.by_ref.is_some()));
            if let Some((_, sub)) = &i.subpat {
                m.insert("sub".into(), pat_v(sub));
            }
        }
        Pat::Lit(l) => {
            m = node("PLit", l.span());
            m.insert("lit".into(), lit_v(&l.lit));
        }
        Pat::Or(o) => {
            m = node("POr", o.span());
            m.insert("cases".into(), Value::Array(o.cases.iter().map(pat_v).collect()));
        }
        Pat::Path(pp) => {
            m = node("PPath", pp.span());
            m.insert("path".into(), path_v(&pp.path));
        }
        Pat::Range(r) => {
            m = node("PRange", r.span());
            if let Some(s) = &r.start {
                m.insert("lo".into(), expr_v(s));
            }
            if let Some(e) = &r.end {
                m.insert("hi".into(), expr_v(e));
            }
            m.insert("closed".into(), json!(matches!(r.limits, RangeLimits::Closed(_))));
        }
        Pat::Reference(r) => {
            m = node("PRef", r.span());
            m.insert("pat".into(), pat_v(&r.pat));
        }
        Pat::Tuple(t) => {
            m = node("PTuple", t.span());
            m.insert("elems".into(), Value::Array(t.elems.iter().map(pat_v).collect()));
        }
        Pat::TupleStruct(t) => {
            m = node("PTupleStruct", t.span());
            m.insert("path".into(), path_v(&t.path));
            m.insert("elems".into(), Value::Array(t.elems.iter().map(pat_v).collect()));
        }
        Pat::Struct(s) => {
            m = node("PStruct", s.span());
            m.insert("path".into(), path_v(&s.path));
            let fields: Vec<Value> = s
                .fields
                .iter()
                .map(|f| json!({"name": toks(&f.member), "pat": pat_v(&f.pat)}))
                .collect();
            m.insert("fields".into(), Value::Array(fields));
            m.insert("rest".into(), json!(s.rest.is_some()));
        }
        Pat::Wild(w) => {
            m = node("PWild", w.span());
        }
        Pat::Type(t) => {
            m = node("PType", t.span());
            m.insert("pat".into(), pat_v(&t.pat));
            m.insert("ty".into(), json!(toks(&t.ty)));
        }
        Pat::Paren(pp) => return pat_v(&pp.pat),
        Pat::Slice(s) => {
            m = node("PSlice", s.span());
            m.insert("elems".into(), Value::Array(s.elems.iter().map(pat_v).collect()));
        }
        Pat::Rest(r) => {
            m = node("PRest", r.span());
        }
        Pat::Const(c) => {
            m = node("PConst", c.span());
            m.insert("text".into(), json!(toks(c)));
        }
        Pat::Macro(mm) => {
            m = node("PMacro", mm.span());
            m.insert("text".into(), json!(toks(mm)));
        }
        other => {
            m = node("PVerbatim", other.span());
            m.insert("text".into(), json!(toks(other)));
        }
    }
    Value::Object(m)
}

fn expr_v(e: &Expr) -> Value {
    let mut m;
    match e {
        Expr::Array(a) => {
            m = node("Array", a.span());
            m.insert("elems".into(), Value::Array(a.elems.iter().map(expr_v).collect()));
        }
        Expr::Assign(a) => {
            m = node("Assign", a.span());
            m.insert("lhs".into(), expr_v(&a.left));
            m.insert("rhs".into(), expr_v(&a.right));
        }
        Expr::Binary(b) => {
            m = node("Binary", b.span());
            m.insert("op".into(), json!(toks(&b.op)));
            m.insert("lhs".into(), expr_v(&b.left));
            m.insert("rhs".into(), expr_v(&b.right));
        }
        Expr::Block(b) => {
            m = node("Block", b.span());
            m.insert("stmts".into(), block_v(&b.block));
            if let Some(l) = &b.label {
                m.insert("label".into(), json!(l.name.ident.to_string()));
            }
        }
        Expr::Unsafe(b) => {
            m = node("Unsafe", b.span());
            m.insert("stmts".into(), block_v(&b.block));
        }
        Expr::Break(b) => {
            m = node("Break", b.span());
            if let Some(x) = &b.expr {
                m.insert("e".into(), expr_v(x));
            }
        }
        Expr::Continue(c) => {
            m = node("Continue", c.span());
        }
        Expr::Call(c) => {
            m = node("Call", c.span());
            m.insert("func".into(), expr_v(&c.func));
            m.insert("args".into(), Value::Array(c.args.iter().map(expr_v).collect()));
        }
        Expr::Cast(c) => {
            m = node("Cast", c.span());
            m.insert("e".into(), expr_v(&c.expr));
            m.insert("ty".into(), json!(toks(&c.ty)));
        }
        Expr::Closure(c) => {
            m = node("Closure", c.span());
            m.insert("params".into(), Value::Array(c.inputs.iter().map(pat_v).collect()));
            m.insert("body".into(), expr_v(&c.body));
            m.insert("move".into(), json!(c.capture.is_some()));
        }
        Expr::Field(f) => {
            m = node("Field", f.span());
            m.insert("base".into(), expr_v(&f.base));
            m.insert("member".into(), json!(toks(&f.member)));
        }
        Expr::ForLoop(f) => {
            m = node("For", f.span());
            m.insert("pat".into(), pat_v(&f.pat));
            m.insert("iter".into(), expr_v(&f.expr));
            m.insert("body".into(), block_v(&f.body));
        }
        Expr::If(i) => {
            m = node("If", i.span());
            m.insert("cond".into(), expr_v(&i.cond));
            m.insert("then".into(), block_v(&i.then_branch));
            if let Some((_, e)) = &i.else_branch {
                m.insert("else".into(), expr_v(e));
            }
        }
        Expr::Index(i) => {
            m = node("Index", i.span());
            m.insert("base".into(), expr_v(&i.expr));
            m.insert("index".into(), expr_v(&i.index));
        }
        Expr::Let(l) => {
            m = node("LetCond", l.span());
            m.insert("pat".into(), pat_v(&l.pat));
            m.insert("e".into(), expr_v(&l.expr));
        }
        Expr::Lit(l) => return lit_v(&l.lit),
        Expr::Loop(l) => {
            m = node("Loop", l.span());
            m.insert("body".into(), block_v(&l.body));
        }
        Expr::Macro(mm) => return macro_v(&mm.mac, mm.span()),
        Expr::Match(mm) => {
            m = node("Match", mm.span());
            m.insert("e".into(), expr_v(&mm.expr));
            let arms: Vec<Value> = mm
                .arms
                .iter()
                .map(|a| {
                    let mut am = node("Arm", a.span());
                    am.insert("pat".into(), pat_v(&a.pat));
                    if let Some((_, g)) = &a.guard {
                        am.insert("guard".into(), expr_v(g));
                    }
                    am.insert("body".into(), expr_v(&a.body));
                    Value::Object(am)
                })
                .collect();
            m.insert("arms".into(), Value::Array(arms));
        }
        Expr::MethodCall(c) => {
            m = node("MethodCall", c.method.span());
            m.insert("recv".into(), expr_v(&c.receiver));
            m.insert("method".into(), json!(c.method.to_string()));
            if let Some(t) = &c.turbofish {
                m.insert("turbofish".into(), json!(toks(t)));
            }
            m.insert("args".into(), Value::Array(c.args.iter().map(expr_v).collect()));
        }
        Expr::Paren(p) => {
            m = node("Paren", p.span());
            m.insert("e".into(), expr_v(&p.expr));
        }
        Expr::Group(g) => return expr_v(&g.expr),
        Expr::Path(p) => {
            m = node("Path", p.span());
            m.insert("path".into(), path_v(&p.path));
            if let Some(q) = &p.qself {
                m.insert("qself".into(), json!(toks(&q.ty)));
            }
        }
        Expr::Range(r) => {
            m = node("Range", r.span());
            if let Some(s) = &r.start {
                m.insert("lo".into(), expr_v(s));
            }
            if let Some(x) = &r.end {
                m.insert("hi".into(), expr_v(x));
            }
            m.insert("closed".into(), json!(matches!(r.limits, RangeLimits::Closed(_))));
        }
        Expr::Reference(r) => {
            m = node("Ref", r.span());
            m.insert("mut".into(), json!(r.mutability.is_some()));
            m.insert("e".into(), expr_v(&r.expr));
        }
        Expr::Repeat(r) => {
            m = node("Repeat", r.span());
            m.insert("e".into(), expr_v(&r.expr));
            m.insert("len".into(), expr_v(&r.len));
        }
        Expr::Return(r) => {
            m = node("Return", r.span());
            if let Some(x) = &r.expr {
                m.insert("e".into(), expr_v(x));
            }
        }
        Expr::Struct(s) => {
            m = node("Struct", s.span());
            m.insert("path".into(), path_v(&s.path));
            let fields: Vec<Value> = s
                .fields
                .iter()
                .map(|f| {
                    json!({"name": toks(&f.member), "e": expr_v(&f.expr), "short": f.colon_token.is_none(),
                           "l": f.span().start().line})
                })
                .collect();
            m.insert("fields".into(), Value::Array(fields));
            if let Some(r) = &s.rest {
                m.insert("rest".into(), expr_v(r));
            }
        }
        Expr::Try(t) => {
            m = node("Try", t.span());
            m.insert("e".into(), expr_v(&t.expr));
        }
        Expr::Tuple(t) => {
            m = node("Tuple", t.span());
            m.insert("elems".into(), Value::Array(t.elems.iter().map(expr_v).collect()));
        }
        Expr::Unary(u) => {
            m = node("Unary", u.span());
            m.insert("op".into(), json!(toks(&u.op)));
            m.insert("e".into(), expr_v(&u.expr));
        }
        Expr::While(w) => {
            m = node("While", w.span());
            m.insert("cond".into(), expr_v(&w.cond));
            m.insert("body".into(), block_v(&w.body));
        }
        other => {
            m = node("Verbatim", other.span());
            m.insert("text".into(), json!(toks(other)));
        }
    }
    Value::Object(m)
}

fn sig_v(m: &mut Map<String, Value>, sig: &Signature) {
    m.insert("name".into(), json!(sig.ident.to_string()));
    let params: Vec<Value> = sig
        .inputs
        .iter()
        .map(|a| match a {
            FnArg::Receiver(r) => json!({"self": true, "text": toks(r)}),
            FnArg::Typed(t) => json!({"pat": pat_v(&t.pat), "ty": toks(&t.ty)}),
        })
        .collect();
    m.insert("params".into(), Value::Array(params));
    m.insert(
        "ret".into(),
        match &sig.output {
            ReturnType::Default => Value::Null,
            ReturnType::Type(_, t) => json!(toks(t)),
        },
    );
    m.insert("generics".into(), json!(toks(&sig.generics)));
    m.insert("unsafe".into(), json!(sig.unsafety.is_some()));
}

fn fields_v(f: &Fields) -> Value {
    Value::Array(
        f.iter()
            .enumerate()
            .map(|(i, fl)| {
                json!({
                    "name": fl.ident.as_ref().map(|x| x.to_string()).unwrap_or(i.to_string()),
                    "ty": toks(&fl.ty),
                    "vis": toks(&fl.vis),
                    "attrs": attrs_v(&fl.attrs),
                    "l": fl.span().start().line,
                })
            })
            .collect(),
    )
}

fn item_v(i: &Item) -> Value {
    let mut m;
    match i {
        Item::Fn(f) => {
            m = node("Fn", f.sig.ident.span());
            m.insert("attrs".into(), attrs_v(&f.attrs));
            m.insert("vis".into(), json!(toks(&f.vis)));
            sig_v(&mut m, &f.sig);
            m.insert("body".into(), block_v(&f.block));
            m.insert("el".into(), json!(f.block.span().end().line));
        }
        Item::Impl(im) => {
            m = node("Impl", im.span());
            m.insert("attrs".into(), attrs_v(&im.attrs));
            m.insert("generics".into(), json!(toks(&im.generics)));
            m.insert("unsafe".into(), json!(im.unsafety.is_some()));
            m.insert(
                "trait".into(),
                match &im.trait_ {
                    Some((_, p, _)) => path_v(p),
                    None => Value::Null,
                },
            );
            m.insert("self_ty".into(), json!(toks(&im.self_ty)));
            let items: Vec<Value> = im
                .items
                .iter()
                .map(|it| match it {
                    ImplItem::Fn(f) => {
                        let mut fm = node("Fn", f.sig.ident.span());
                        fm.insert("attrs".into(), attrs_v(&f.attrs));
                        fm.insert("vis".into(), json!(toks(&f.vis)));
                        sig_v(&mut fm, &f.sig);
                        fm.insert("body".into(), block_v(&f.block));
                        fm.insert("el".into(), json!(f.block.span().end().line));
                        Value::Object(fm)
                    }
                    ImplItem::Type(t) => {
                        let mut tm = node("AssocType", t.span());
                        tm.insert("name".into(), json!(t.ident.to_string()));
                        tm.insert("ty".into(), json!(toks(&t.ty)));
                        Value::Object(tm)
                    }
                    ImplItem::Const(c) => {
                        let mut cm = node("AssocConst", c.span());
                        cm.insert("name".into(), json!(c.ident.to_string()));
                        cm.insert("ty".into(), json!(toks(&c.ty)));
                        cm.insert("e".into(), expr_v(&c.expr));
                        Value::Object(cm)
                    }
                    other => {
                        let mut om = node("ImplVerbatim", other.span());
                        om.insert("text".into(), json!(toks(other)));
                        Value::Object(om)
                    }
                })
                .collect();
            m.insert("items".into(), Value::Array(items));
        }
        Item::Struct(s) => {
            m = node("StructDef", s.span());
            m.insert("attrs".into(), attrs_v(&s.attrs));
            m.insert("vis".into(), json!(toks(&s.vis)));
            m.insert("name".into(), json!(s.ident.to_string()));
            m.insert("generics".into(), json!(toks(&s.generics)));
            m.insert("tuple".into(), json!(matches!(s.fields, Fields::Unnamed(_))));
            m.insert("fields".into(), fields_v(&s.fields));
        }
        Item::Enum(e) => {
            m = node("EnumDef", e.span());
            m.insert("attrs".into(), attrs_v(&e.attrs));
            m.insert("vis".into(), json!(toks(&e.vis)));
            m.insert("name".into(), json!(e.ident.to_string()));
            let vars: Vec<Value> = e
                .variants
                .iter()
                .map(|v| {
                    json!({
                        "name": v.ident.to_string(),
                        "attrs": attrs_v(&v.attrs),
                        "fields": fields_v(&v.fields),
                        "disc": v.discriminant.as_ref().map(|(_, d)| expr_v(d)),
                        "l": v.span().start().line,
                    })
                })
                .collect();
            m.insert("variants".into(), Value::Array(vars));
        }
        Item::Mod(md) => {
            m = node("Mod", md.span());
            m.insert("attrs".into(), attrs_v(&md.attrs));
            m.insert("name".into(), json!(md.ident.to_string()));
            if let Some((_, items)) = &md.content {
                m.insert("items".into(), Value::Array(items.iter().map(item_v).collect()));
            }
        }
        Item::Use(u) => {
            m = node("Use", u.span());
            m.insert("text".into(), json!(toks(&u.tree)));
        }
        Item::Const(c) => {
            m = node("Const", c.span());
            m.insert("name".into(), json!(c.ident.to_string()));
            m.insert("ty".into(), json!(toks(&c.ty)));
            m.insert("e".into(), expr_v(&c.expr));
        }
        Item::Static(c) => {
            m = node("Static", c.span());
            m.insert("mut".into(), json!(matches!(c.mutability, syn::StaticMutability::Mut(_))));
            m.insert("name".into(), json!(c.ident.to_string()));
            m.insert("ty".into(), json!(toks(&c.ty)));
            m.insert("e".into(), expr_v(&c.expr));
        }
        Item::Trait(t) => {
            m = node("Trait", t.span());
            m.insert("attrs".into(), attrs_v(&t.attrs));
            m.insert("name".into(), json!(t.ident.to_string()));
            let items: Vec<Value> = t
                .items
                .iter()
                .map(|it| match it {
                    TraitItem::Fn(f) => {
                        let mut fm = node("Fn", f.sig.ident.span());
                        fm.insert("attrs".into(), attrs_v(&f.attrs));
                        sig_v(&mut fm, &f.sig);
                        match &f.default {
                            Some(b) => {
                                fm.insert("body".into(), block_v(b));
                            }
                            None => {
                                fm.insert("body".into(), Value::Null);
                            }
                        }
                        Value::Object(fm)
                    }
                    other => {
                        let mut om = node("TraitVerbatim", other.span());
                        om.insert("text".into(), json!(toks(other)));
                        Value::Object(om)
                    }
                })
                .collect();
            m.insert("items".into(), Value::Array(items));
        }
        Item::Type(t) => {
            m = node("TypeAlias", t.span());
            m.insert("name".into(), json!(t.ident.to_string()));
            m.insert("ty".into(), json!(toks(&t.ty)));
        }
        Item::Macro(mm) => {
            m = node("ItemMacro", mm.span());
            m.insert("attrs".into(), attrs_v(&mm.attrs));
            m.insert("path".into(), json!(toks(&mm.mac.path)));
            m.insert("ident".into(), json!(mm.ident.as_ref().map(|i| i.to_string())));
            m.insert("tokens".into(), json!(mm.mac.tokens.to_string()));
        }
        other => {
            m = node("ItemVerbatim", other.span());
            m.insert("text".into(), json!(toks(other)));
        }
    }
    Value::Object(m)
}

fn convert(src: &str) -> std::result::Result<Value, String> {
    let file = syn::parse_file(src).map_err(|e| {
        let s = e.span().start();
        format!("{}:{}: {}", s.line, s.column, e)
    })?;
    Ok(json!({
        "attrs": attrs_v(&file.attrs),
        "items": Value::Array(file.items.iter().map(item_v).collect()),
    }))
}

fn main() {
    let args: Vec<String> = std::env::args().collect();
    if args.len() >= 4 && args[1] == "--dir" {
        let indir = std::path::Path::new(&args[2]);
        let outdir = std::path::Path::new(&args[3]);
        std::fs::create_dir_all(outdir).unwrap();
        let mut n = 0;
        let mut failed = 0;
        let mut entries: Vec<_> = std::fs::read_dir(indir).unwrap().map(|e| e.unwrap().path()).collect();
        entries.sort();
        for p in entries {
            if p.extension().map(|e| e == "rs").unwrap_or(false) {
                let src = std::fs::read_to_string(&p).unwrap();
                let stem = p.file_stem().unwrap().to_string_lossy().to_string();
                let out = outdir.join(format!("{stem}.json"));
                match convert(&src) {
                    Ok(v) => std::fs::write(out, serde_json::to_string(&v).unwrap()).unwrap(),
                    Err(e) => {
                        failed += 1;
                        std::fs::write(out, serde_json::to_string(&json!({"error": e})).unwrap()).unwrap()
                    }
                }
                n += 1;
            }
        }
        eprintln!("syn2json: {n} files, {failed} failed");
        return;
    }
    if args.len() < 2 {
        eprintln!("usage: syn2json <in.rs> [<out.json>] | --dir <indir> <outdir>");
        std::process::exit(2);
    }
    let src = std::fs::read_to_string(&args[1]).expect("read input");
    match convert(&src) {
        Ok(v) => {
            let s = serde_json::to_string(&v).unwrap();
            if args.len() >= 3 {
                std::fs::write(&args[2], s).unwrap();
            } else {
                println!("{s}");
            }
        }
        Err(e) => {
            eprintln!("syn2json: parse error: {e}");
            std::process::exit(1);
        }
    }
}
