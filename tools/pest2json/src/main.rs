//! pest2json: extract the `grammar_inline` string of a Rust file (or read a .pest
//! file) and dump pest_meta's AST of it as JSON. No rules inside.
//! usage: pest2json <parser.rs | grammar.pest>
use pest_meta::ast::{Expr, RuleType};
use pest_meta::parser::{self, Rule};
use serde_json::{json, Value};

fn expr_v(e: &Expr) -> Value {
    match e {
        Expr::Str(s) => json!({"k": "Str", "v": s}),
        Expr::Insens(s) => json!({"k": "Insens", "v": s}),
        Expr::Range(a, b) => json!({"k": "Range", "lo": a, "hi": b}),
        Expr::Ident(s) => json!({"k": "Ident", "v": s}),
        Expr::PeekSlice(a, b) => json!({"k": "PeekSlice", "a": a, "b": b}),
        Expr::PosPred(x) => json!({"k": "PosPred", "e": expr_v(x)}),
        Expr::NegPred(x) => json!({"k": "NegPred", "e": expr_v(x)}),
        Expr::Seq(a, b) => json!({"k": "Seq", "a": expr_v(a), "b": expr_v(b)}),
        Expr::Choice(a, b) => json!({"k": "Choice", "a": expr_v(a), "b": expr_v(b)}),
        Expr::Opt(x) => json!({"k": "Opt", "e": expr_v(x)}),
        Expr::Rep(x) => json!({"k": "Rep", "e": expr_v(x)}),
        Expr::RepOnce(x) => json!({"k": "RepOnce", "e": expr_v(x)}),
        Expr::RepExact(x, n) => json!({"k": "RepExact", "e": expr_v(x), "n": n}),
        Expr::RepMin(x, n) => json!({"k": "RepMin", "e": expr_v(x), "n": n}),
        Expr::RepMax(x, n) => json!({"k": "RepMax", "e": expr_v(x), "n": n}),
        Expr::RepMinMax(x, a, b) => json!({"k": "RepMinMax", "e": expr_v(x), "min": a, "max": b}),
        Expr::Skip(v) => json!({"k": "Skip", "v": v}),
        Expr::Push(x) => json!({"k": "Push", "e": expr_v(x)}),
        #[allow(unreachable_patterns)]
        _ => json!({"k": "Other", "text": format!("{e:?}")}),
    }
}

fn find_grammar(src: &str) -> Option<String> {
    let file = syn::parse_file(src).ok()?;
    for item in &file.items {
        let attrs = match item {
            syn::Item::Struct(s) => &s.attrs,
            syn::Item::Enum(s) => &s.attrs,
            _ => continue,
        };
        for a in attrs {
            if a.path().is_ident("grammar_inline") {
                if let syn::Meta::NameValue(nv) = &a.meta {
                    if let syn::Expr::Lit(l) = &nv.value {
                        if let syn::Lit::Str(s) = &l.lit {
                            return Some(s.value());
                        }
                    }
                }
            }
        }
    }
    None
}

fn main() {
    let args: Vec<String> = std::env::args().collect();
    if args.len() < 2 {
        eprintln!("usage: pest2json <parser.rs | grammar.pest>");
        std::process::exit(2);
    }
    let src = std::fs::read_to_string(&args[1]).expect("read");
    let grammar = if args[1].ends_with(".rs") {
        match find_grammar(&src) {
            Some(g) => g,
            None => {
                println!("{}", json!({"error": "no grammar_inline attribute found"}));
                std::process::exit(1);
            }
        }
    } else {
        src
    };
    let pairs = match parser::parse(Rule::grammar_rules, &grammar) {
        Ok(p) => p,
        Err(e) => {
            println!("{}", json!({"error": format!("{e}")}));
            std::process::exit(1);
        }
    };
    let rules = match parser::consume_rules(pairs) {
        Ok(r) => r,
        Err(es) => {
            println!("{}", json!({"error": format!("{es:?}")}));
            std::process::exit(1);
        }
    };
    let out: Vec<Value> = rules
        .iter()
        .map(|r| {
            let ty = match r.ty {
                RuleType::Normal => "Normal",
                RuleType::Silent => "Silent",
                RuleType::Atomic => "Atomic",
                RuleType::CompoundAtomic => "CompoundAtomic",
                RuleType::NonAtomic => "NonAtomic",
            };
            json!({"name": r.name, "ty": ty, "expr": expr_v(&r.expr)})
        })
        .collect();
    println!("{}", json!({"rules": out, "text": grammar}));
}
