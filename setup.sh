#!/bin/sh
# Build the dumpers offline (MANIFEST.setup_cmd): three Rust tools and the javac-tree dumper. Everything else is
# Python stdlib.
set -e
cd "$(dirname "$0")/tools"
[ -f Cargo.lock ] || cp /repo/Cargo.lock Cargo.lock
CARGO_NET_OFFLINE=true cargo build --offline --quiet
mkdir -p javadump/classes
javac -nowarn -d javadump/classes javadump/JavaDump.java
echo "tools built"
