#!/bin/sh
# Build the three dumpers offline (MANIFEST.setup_cmd). Everything else is Python stdlib.
set -e
cd "$(dirname "$0")/tools"
[ -f Cargo.lock ] || cp /repo/Cargo.lock Cargo.lock
CARGO_NET_OFFLINE=true cargo build --offline --quiet
echo "tools built"
