// Positive example for rule C11(e): every construct below must be reported by check_decl_isolation on every run.
// Not part of any build; parsed by tools/syn2json only.
use std::cell::RefCell;
use std::collections::HashSet;

static mut HELPERS_EMITTED: usize = 0;
static SEEN: std::sync::Mutex<Vec<String>> = std::sync::Mutex::new(Vec::new());
thread_local! { static CACHE: RefCell<HashSet<usize>> = RefCell::new(HashSet::new()); }

pub fn generate(file: &ast::File, exclude_declarations: &[String]) -> String {
    let mut code = String::new();
    let mut emitted_widths = HashSet::new();
    for decl in &file.declarations {
        if exclude_declarations.contains(&decl.id().to_string()) {
            continue;
        }
        // carried state: the helper is emitted by the first declaration that needs it
        code.push_str(&generate_decl(decl, &mut emitted_widths));
    }
    for decl in &file.declarations {
        code.push_str(&generate_footer(decl));
    }
    code
}
